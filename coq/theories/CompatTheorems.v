(* CompatTheorems.v — theorems about Compat.v (C20). *)
From Coq Require Import ZArith List Bool String QArith Lia.
From Yad Require Import Thresholds Compat.
Import ListNotations.
Open Scope string_scope.

(* ---------------------------------------------------------------- dictionaries *)
Lemma aget_aset_eq m k v : aget (aset m k v) k = Some v.
Proof. induction m as [|[k' v'] r IH]; cbn; [rewrite String.eqb_refl; reflexivity|]. destruct (String.eqb k k') eqn:E; cbn; rewrite ?String.eqb_refl, ?E; auto. Qed.
Lemma aget_aset_neq m k v k' : String.eqb k' k = false -> aget (aset m k v) k' = aget m k'.
Proof.
  intros H. induction m as [|[k0 v0] r IH]; cbn; [rewrite H; reflexivity|].
  destruct (String.eqb k k0) eqn:E; cbn.
  - apply String.eqb_eq in E. subst. rewrite H. reflexivity.
  - destruct (String.eqb k' k0); [reflexivity | exact IH].
Qed.
Lemma aset_same m k v : aget m k = Some v -> aset m k v = m.
Proof.
  induction m as [|[k0 v0] r IH]; cbn; [discriminate|]. destruct (String.eqb k k0) eqn:E.
  - intros H; injection H as ->. apply String.eqb_eq in E. subst. reflexivity.
  - intros H. rewrite (IH H). reflexivity.
Qed.
Lemma aget_apop_eq_none m k : aget m k = None -> apop m k = m.
Proof.
  induction m as [|[k0 v0] r IH]; cbn; [reflexivity|]. destruct (String.eqb k k0); [discriminate|]. intros H. rewrite (IH H). reflexivity.
Qed.
Lemma aget_apop_neq m k k' : String.eqb k' k = false -> aget (apop m k) k' = aget m k'.
Proof.
  intros H. induction m as [|[k0 v0] r IH]; cbn; [reflexivity|]. destruct (String.eqb k k0) eqn:E; cbn.
  - apply String.eqb_eq in E. subst. rewrite H. reflexivity.
  - destruct (String.eqb k' k0); [reflexivity | exact IH].
Qed.

(* ---------------------------------------------------------------- idempotence of the pieces of update *)
Theorem upd_sv_idempotent t : upd_sv (upd_sv t) = upd_sv t.
Proof.
  unfold upd_sv.
  destruct (aget t "RenScaleVar") eqn:E1.
  - destruct (aget t "FactScaleVar") eqn:E2.
    + rewrite E1, E2. reflexivity.
    + rewrite aget_aset_neq by reflexivity. rewrite E1, aget_aset_eq. reflexivity.
  - rewrite (aget_aset_neq t "RenScaleVar" (VB true) "FactScaleVar") by reflexivity.
    destruct (aget t "FactScaleVar") eqn:E2.
    + rewrite aget_aset_eq. rewrite aget_aset_neq by reflexivity. rewrite E2. reflexivity.
    + rewrite aget_aset_neq by reflexivity. rewrite aget_aset_eq, aget_aset_eq. reflexivity.
Qed.

Theorem update_obs_idempotent tbl o o' : update_obs tbl o = Some o' -> update_obs tbl o' = Some o'.
Proof.
  unfold update_obs. destruct (aget o "TargetDIS") as [v|] eqn:E; [|discriminate].
  destruct v; try (intros H; injection H as <-; rewrite E; reflexivity).
  destruct (target_of tbl s) as [[z a]|]; [|discriminate]. intros H; injection H as <-.
  rewrite aget_aset_neq by reflexivity. rewrite aget_aset_eq. reflexivity.
Qed.

(* ---------------------------------------------------------------- update_theory on every card shape *)
(* update only looks at FNS, NfFF and at the presence / None-ness of PTODIS, FONLLParts, RenScaleVar, FactScaleVar,
   alphaqed, QED; all other entries are carried along untouched.  The shapes are enumerated completely. *)
Definition card_eqb (a b : card) : bool :=
  (fix go a b := match a, b with
   | [], [] => true
   | (k, v) :: a', (k', v') :: b' =>
       String.eqb k k' && (match v, v' with
         | VQ x, VQ y => Qeq_bool x y | VInf, VInf => true | VZ x, VZ y => (x =? y)%Z | VS x, VS y => String.eqb x y
         | VB x, VB y => Bool.eqb x y | VNone, VNone => true | VTarget x y, VTarget x' y' => Qeq_bool x x' && Qeq_bool y y'
         | VPair x y, VPair x' y' => ((x =? x') && (y =? y'))%Z | VOther x, VOther y => (x =? y)%Z | _, _ => false end) && go a' b'
   | _, _ => false end) a b.
Definition opt3 (k : string) (v : value) : list (list (string * value)) := [[]; [(k, VNone)]; [(k, v)]].
Definition opt2 (k : string) (v : value) : list (list (string * value)) := [[]; [(k, v)]].
Definition shapes : list card :=
  flat_map (fun f => flat_map (fun nf => flat_map (fun a => flat_map (fun b => flat_map (fun c => flat_map (fun d => flat_map (fun e =>
    map (fun g => [("PTO", VZ 2); ("FNS", VS f); ("NfFF", VZ nf); ("kcThr", VQ (3 # 2)); ("kbThr", VQ 1); ("ktThr", VQ 1); ("mc", VQ (3 # 2)); ("XIR", VOther 7)]
                  ++ a ++ b ++ c ++ d ++ e ++ g)%list
        (opt2 "QED" (VZ 0))) (opt2 "alphaqed" (VQ (1 # 137)))) (opt2 "FactScaleVar" (VB false))) (opt2 "RenScaleVar" (VB false)))
    (opt3 "FONLLParts" (VS "massive"))) (opt3 "PTODIS" (VZ 1))) [3; 4; 5; 6]%Z)
    ["ZM-VFNS"; "FFNS"; "FFN0"; "FONLL-FFNS"; "FONLL-FFN0"; "VFNS"].
Definition idem_on (t : card) : bool :=
  match update_theory t with
  | None => true                                   (* rejected cards (unknown scheme) *)
  | Some t' => match update_theory t' with Some t'' => card_eqb t' t'' | None => false end
  end.
Theorem update_theory_idempotent_on_shapes : forallb idem_on shapes = true.
Proof. vm_compute. reflexivity. Qed.
Theorem shapes_count : List.length shapes = 3456%nat.
Proof. vm_compute. reflexivity. Qed.

(* ---------------------------------------------------------------- the frame property: inputs untouched *)
Lemma hget_hset_other h a c b : a <> b -> hget (hset h a c) b = hget h b.
Proof.
  intros H. induction h as [|[a' c'] r IH]; cbn.
  - destruct (Z.eqb_spec b a); [congruence | reflexivity].
  - destruct (Z.eqb_spec a a') as [->|Hn]; cbn.
    + destruct (Z.eqb_spec b a'); [congruence | reflexivity].
    + destruct (Z.eqb_spec b a'); [reflexivity | exact IH].
Qed.
Lemma wapply_other h w b : waddr w <> b -> hget (wapply h w) b = hget h b.
Proof.
  destruct w as [a k v|a k]; cbn [waddr wapply]; intros H; destruct (hget h a); try reflexivity; apply hget_hset_other; exact H.
Qed.
(* if no write of a whole history targets a container, that container is exactly what it was *)
Theorem untouched_if_not_written ws : forall h b, (forall w, In w ws -> waddr w <> b) -> hget (fold_left wapply ws h) b = hget h b.
Proof.
  induction ws as [|w ws IH]; intros h b H; cbn [fold_left]; [reflexivity|].
  rewrite IH by (intros w' Hw'; apply H; right; exact Hw'). apply wapply_other. apply H. left. reflexivity.
Qed.
