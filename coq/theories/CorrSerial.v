(* CorrSerial.v — agreement predicates for tools/corr/serial.py (payload = small integer tensors). *)
From Coq Require Import ZArith List Bool String QArith.
From Yad Require Import Result Serial.
Import ListNotations.

Definition pay := list (list Z).
Definition pay_eqb (a b : pay) : bool :=
  (fix go a b := match a, b with [], [] => true
                 | x :: a', y :: b' => (fix g x y := match x, y with [], [] => true | u :: x', v :: y' => (u =? v)%Z && g x' y' | _, _ => false end) x y && go a' b'
                 | _, _ => false end) a b.
Fixpoint list_eqb {A} (eq : A -> A -> bool) (a b : list A) : bool :=
  match a, b with [], [] => true | x :: a', y :: b' => eq x y && list_eqb eq a' b' | _, _ => false end.
Definition res_eqb (a b : res pay) : bool :=
  list_eqb (fun p q => String.eqb (fst p) (fst q) && Qeq_bool (snd p) (snd q)) (r_kin a) (r_kin b)
  && list_eqb (fun p q => okey_eqb (fst (fst p)) (fst (fst q)) && pay_eqb (snd (fst p)) (snd (fst q)) && pay_eqb (snd p) (snd q)) (r_orders a) (r_orders b).
Definition dumped_eqb (a b : dumped pay) : bool :=
  list_eqb okey_eqb (d_orders a) (d_orders b) && list_eqb String.eqb (d_names a) (d_names b)
  && list_eqb (list_eqb Qeq_bool) (d_cols a) (d_cols b)
  && list_eqb (list_eqb pay_eqb) (d_vals a) (d_vals b) && list_eqb (list_eqb pay_eqb) (d_errs a) (d_errs b).

(* one observable: the results handed to dump_tar; what the tar holds (None: dump_tar raised); what load_tar returned *)
Record scase := { sc_in : list (res pay); sc_tar : option (dumped pay); sc_loaded : list (res pay) }.
Definition scase_ok (c : scase) : bool :=
  match dump_obs (sc_in c), sc_tar c with
  | None, None => match sc_loaded c with [] => true | _ => false end
  | Some d, Some d' => dumped_eqb d d' && list_eqb res_eqb (load_obs d') (sc_loaded c)
  | _, _ => false
  end.
