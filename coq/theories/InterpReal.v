(* InterpReal.v — C19, the analytic half for the interpolation itself: the error of the piecewise Lagrange interpolation of a
   smooth function on one block of eko's basis (2..5 nodes, interpolation degree 1..4) is bounded by
       (1 + Lebesgue function) * sup |f^(d+1)| * (width of the block)^(d+1) / (d+1)!
   Derived from the algebraic theorem InterpTheorems.lagrange_reproduces (exactness on polynomials) and the Taylor-Lagrange
   formula of Coquelicot; nothing is assumed about the spacing of the nodes.  In eko's log mode the interpolation variable is
   ln x: the theorem is then about f o exp on the logarithms of the nodes (the model Interp.v is already written in the
   interpolation variable). *)
From Coq Require Import Reals List Lra Lia Arith Bool.
From Coquelicot Require Import Coquelicot.
From Yad Require Import Base Interp InterpTheorems.
Import ListNotations.
Open Scope R_scope.

(* the real numbers as an instance of the abstract field of the models (decidable equality: Req_EM_T of the standard library) *)
Definition R_eqb (a b : R) : bool := if Req_EM_T a b then true else false.
Lemma R_eqb_spec a b : R_eqb a b = true <-> a = b.
Proof. unfold R_eqb. destruct (Req_EM_T a b); split; auto; discriminate. Qed.
Definition RFld : Fld := {|
  F := R; f0 := 0; f1 := 1; fadd := Rplus; fmul := Rmult; fsub := Rminus; fopp := Ropp; fdiv := Rdiv; finv := Rinv;
  Fth := Rfield; feqb := R_eqb; feqb_spec := R_eqb_spec |}.

(* the j-th Lagrange polynomial of the node list, the interpolant of g, and the Lebesgue function *)
Definition lag (vs : list R) (j : nat) (t : R) : R := @lagv RFld vs (nth j vs 0) j 0 t.
Definition rsum (a : nat -> R) (l : list nat) : R := @fsum RFld (map a l).
Definition interp (vs : list R) (g : R -> R) (t : R) : R := rsum (fun j => lag vs j t * g (nth j vs 0)) (seq 0 (length vs)).
Definition lebesgue (vs : list R) (t : R) : R := rsum (fun j => Rabs (lag vs j t)) (seq 0 (length vs)).
(* sum_{m <= n} c_m u^m *)
Definition peval (c : nat -> R) (n : nat) (u : R) : R := sum_f_R0 (fun m => c m * u ^ m) n.

(* ---------------- finite sums *)
Lemma rsum_nil a : rsum a [] = 0. Proof. reflexivity. Qed.
Lemma rsum_cons a j l : rsum a (j :: l) = a j + rsum a l. Proof. reflexivity. Qed.
Lemma rsum_add a b l : rsum (fun j => a j + b j) l = rsum a l + rsum b l.
Proof. induction l as [|j l IH]; rewrite ?rsum_nil, ?rsum_cons; [lra | rewrite IH; lra]. Qed.
Lemma rsum_scal c a l : rsum (fun j => c * a j) l = c * rsum a l.
Proof. induction l as [|j l IH]; rewrite ?rsum_nil, ?rsum_cons; [lra | rewrite IH; lra]. Qed.
Lemma rsum_ext a b l : (forall j, In j l -> a j = b j) -> rsum a l = rsum b l.
Proof.
  induction l as [|j l IH]; intros H; rewrite ?rsum_nil, ?rsum_cons; [reflexivity|].
  rewrite (H j (or_introl eq_refl)), IH; [reflexivity|]. intros i Hi. apply H. right. exact Hi.
Qed.
Lemma rsum_le a b l : (forall j, In j l -> a j <= b j) -> rsum a l <= rsum b l.
Proof.
  induction l as [|j l IH]; intros H; rewrite ?rsum_nil, ?rsum_cons; [lra|].
  assert (a j <= b j) by (apply H; left; reflexivity).
  assert (rsum a l <= rsum b l) by (apply IH; intros i Hi; apply H; right; exact Hi). lra.
Qed.
Lemma rsum_abs a l : Rabs (rsum a l) <= rsum (fun j => Rabs (a j)) l.
Proof.
  induction l as [|j l IH]; rewrite ?rsum_nil, ?rsum_cons; [rewrite Rabs_R0; lra|].
  eapply Rle_trans; [apply Rabs_triang|]. lra.
Qed.

(* ---------------- the interpolant is linear in the function and invariant under a shift of the variable *)
Lemma interp_sub vs g p t : interp vs (fun v => g v - p v) t = interp vs g t - interp vs p t.
Proof.
  unfold interp.
  replace (rsum (fun j => lag vs j t * g (nth j vs 0)) (seq 0 (length vs)) - rsum (fun j => lag vs j t * p (nth j vs 0)) (seq 0 (length vs)))
    with (rsum (fun j => lag vs j t * g (nth j vs 0)) (seq 0 (length vs)) + (-1) * rsum (fun j => lag vs j t * p (nth j vs 0)) (seq 0 (length vs))) by lra.
  rewrite <- rsum_scal, <- rsum_add. apply rsum_ext. intros j _. lra.
Qed.
Lemma interp_add vs g p t : interp vs (fun v => g v + p v) t = interp vs g t + interp vs p t.
Proof. unfold interp. rewrite <- rsum_add. apply rsum_ext. intros j _. lra. Qed.
Lemma interp_scal vs c g t : interp vs (fun v => c * g v) t = c * interp vs g t.
Proof. unfold interp. rewrite <- rsum_scal. apply rsum_ext. intros j _. lra. Qed.

Lemma lagv_shift a l vj j cur t :
  @lagv RFld (map (fun v => v - a) l) (vj - a) j cur (t - a) = @lagv RFld l vj j cur t.
Proof.
  revert cur. induction l as [|v r IH]; intros cur; cbn [map lagv]; [reflexivity|].
  rewrite IH. destruct (Nat.eqb cur j); [reflexivity|].
  cbn [fmul fdiv fsub RFld]. replace (t - a - (v - a)) with (t - v) by lra. replace (vj - a - (v - a)) with (vj - v) by lra. reflexivity.
Qed.
Lemma nth_shift a l j : (j < length l)%nat -> nth j (map (fun v => v - a) l) 0 = nth j l 0 - a.
Proof. intros Hj. rewrite (nth_indep _ 0 (0 - a)) by (rewrite map_length; exact Hj). apply (map_nth (fun v => v - a)). Qed.
Lemma lag_shift a vs j t : (j < length vs)%nat -> lag (map (fun v => v - a) vs) j (t - a) = lag vs j t.
Proof. intros Hj. unfold lag. rewrite nth_shift by exact Hj. apply lagv_shift. Qed.
Lemma alldiff_shift a vs : @alldiff RFld vs -> @alldiff RFld (map (fun v => v - a) vs).
Proof.
  induction vs as [|v r IH]; cbn [map alldiff]; [trivial|]. intros [Hv Hr]. split; [|apply IH, Hr].
  rewrite List.Forall_forall in *. intros w Hw. apply in_map_iff in Hw. destruct Hw as [w' [<- Hw']].
  destruct (Hv w' Hw') as [H1 H2]. cbn [fsub f0 RFld] in *. split; lra.
Qed.
Lemma fpow_pow a k : @fpow RFld a k = a ^ k.
Proof. reflexivity. Qed.

(* exactness on (t - a)^k, k up to the degree: the algebraic theorem, shifted *)
Lemma interp_shifted_power vs a k t : @alldiff RFld vs -> (2 <= length vs <= 5)%nat -> (k < length vs)%nat ->
  interp vs (fun v => (v - a) ^ k) t = (t - a) ^ k.
Proof.
  intros H Hl Hk.
  pose proof (@lagrange_reproduces RFld (map (fun v => v - a) vs) k (t - a) (alldiff_shift a vs H)) as L.
  rewrite map_length in L. specialize (L Hl Hk). change (@interp_pow RFld (map (fun v => v - a) vs) k (t - a) = (t - a) ^ k) in L. rewrite <- L.
  unfold interp, interp_pow, rsum. rewrite map_length. f_equal. apply map_ext_in. intros j Hj. apply in_seq in Hj.
  change (lag vs j t * (nth j vs 0 - a) ^ k =
          lag (map (fun v => v - a) vs) j (t - a) * @fpow RFld (nth j (map (fun v => v - a) vs) 0) k).
  rewrite (lag_shift a vs j t) by lia. rewrite (nth_shift a vs j) by lia. reflexivity.
Qed.
(* exactness on every polynomial of degree <= number of nodes - 1, written in powers of (t - a) *)
Lemma interp_polynomial vs a c n t : @alldiff RFld vs -> (2 <= length vs <= 5)%nat -> (n < length vs)%nat ->
  interp vs (fun v => peval c n (v - a)) t = peval c n (t - a).
Proof.
  intros H Hl. induction n as [|n IH]; intros Hn; unfold peval in *; cbn [sum_f_R0].
  - rewrite interp_scal. rewrite (interp_shifted_power vs a 0 t H Hl) by lia. reflexivity.
  - rewrite interp_add, IH by lia. rewrite interp_scal. rewrite (interp_shifted_power vs a (S n) t H Hl Hn). reflexivity.
Qed.

(* ---------------- Lebesgue's lemma: the interpolation error is at most (1 + Lambda) times the distance of g from ANY
   polynomial of degree <= d, measured on the nodes and at the point *)
Theorem lebesgue_lemma vs g a c n t E : @alldiff RFld vs -> (2 <= length vs <= 5)%nat -> (n < length vs)%nat ->
  (forall j, (j < length vs)%nat -> Rabs (g (nth j vs 0) - peval c n (nth j vs 0 - a)) <= E) ->
  Rabs (g t - peval c n (t - a)) <= E ->
  Rabs (interp vs g t - g t) <= (1 + lebesgue vs t) * E.
Proof.
  intros H Hl Hn Hnodes Ht.
  replace (interp vs g t - g t) with (interp vs (fun v => g v - peval c n (v - a)) t - (g t - peval c n (t - a)))
    by (rewrite interp_sub, interp_polynomial by assumption; lra).
  eapply Rle_trans; [apply Rabs_triang|]. rewrite Rabs_Ropp.
  assert (Rabs (interp vs (fun v => g v - peval c n (v - a)) t) <= lebesgue vs t * E); [|lra].
  unfold interp, lebesgue. eapply Rle_trans; [apply rsum_abs|].
  apply Rle_trans with (rsum (fun j => E * Rabs (lag vs j t)) (seq 0 (length vs))); [|rewrite rsum_scal, Rmult_comm; apply Rle_refl].
  apply rsum_le. intros j Hj. apply in_seq in Hj. rewrite Rabs_mult.
  rewrite (Rmult_comm E). apply Rmult_le_compat_l; [apply Rabs_pos | apply Hnodes; lia].
Qed.

(* ---------------- with Taylor-Lagrange: a function with d+1 derivatives, the (d+1)-th bounded by M on the interval that
   contains the block and the point *)
Lemma taylor_remainder f n a b M y : a < b -> a <= y <= b ->
  (forall u, a <= u <= b -> forall k, (k <= S n)%nat -> ex_derive_n f k u) ->
  (forall u, a < u < b -> Rabs (Derive_n f (S n) u) <= M) ->
  Rabs (f y - peval (fun m => Derive_n f m a / INR (fact m)) n (y - a)) <= M * (b - a) ^ S n / INR (fact (S n)).
Proof.
  intros Hab Hy Hd HM.
  assert (Hf : 0 < INR (fact (S n))) by (apply lt_0_INR, lt_O_fact).
  assert (M0 : 0 <= M). { eapply Rle_trans; [apply Rabs_pos | apply (HM ((a + b) / 2)); lra]. }
  assert (Hp : 0 <= (b - a) ^ S n) by (apply pow_le; lra).
  destruct (Req_dec y a) as [->|Hne].
  - replace (peval (fun m => Derive_n f m a / INR (fact m)) n (a - a)) with (f a).
    + replace (f a - f a) with 0 by lra. rewrite Rabs_R0. apply Rmult_le_pos; [apply Rmult_le_pos; assumption | left; apply Rinv_0_lt_compat, Hf].
    + unfold peval. replace (a - a) with 0 by lra. clear. induction n as [|n IH]; cbn [sum_f_R0].
      * cbn [Derive_n fact pow INR]. field.
      * rewrite <- IH. rewrite pow_i by lia. lra.
  - assert (Hay : a < y) by lra.
    destruct (Taylor_Lagrange f n a y Hay) as [z [Hz E]].
    { intros u Hu k Hk. apply Hd; [lra | exact Hk]. }
    unfold peval. rewrite E.
    replace (sum_f_R0 (fun m => (y - a) ^ m / INR (fact m) * Derive_n f m a) n) with (sum_f_R0 (fun m => Derive_n f m a / INR (fact m) * (y - a) ^ m) n)
      by (apply sum_eq; intros i _; unfold Rdiv; ring).
    match goal with |- Rabs (?s + ?r - ?s) <= _ => replace (s + r - s) with r by ring end.
    unfold Rdiv. rewrite !Rabs_mult. rewrite (Rabs_right (/ INR (fact (S n)))) by (left; apply Rinv_0_lt_compat, Hf).
    assert (Hpy : Rabs ((y - a) ^ S n) <= (b - a) ^ S n).
    { rewrite Rabs_right by (apply Rle_ge, pow_le; lra). apply pow_incr. lra. }
    assert (HD : Rabs (Derive_n f (S n) z) <= M) by (apply HM; lra).
    pose proof (Rabs_pos ((y - a) ^ S n)). pose proof (Rabs_pos (Derive_n f (S n) z)).
    assert (Hi : 0 < / INR (fact (S n))) by (apply Rinv_0_lt_compat, Hf).
    assert (Rabs ((y - a) ^ S n) * Rabs (Derive_n f (S n) z) <= (b - a) ^ S n * M) by (apply Rmult_le_compat; assumption).
    nra.
Qed.

Theorem interp_error_smooth vs f a b M t : @alldiff RFld vs -> (2 <= length vs <= 5)%nat -> a < b ->
  (forall j, (j < length vs)%nat -> a <= nth j vs 0 <= b) -> a <= t <= b ->
  (forall u, a <= u <= b -> forall k, (k <= length vs)%nat -> ex_derive_n f k u) ->
  (forall u, a < u < b -> Rabs (Derive_n f (length vs) u) <= M) ->
  Rabs (interp vs f t - f t) <= (1 + lebesgue vs t) * (M * (b - a) ^ length vs / INR (fact (length vs))).
Proof.
  intros H Hl Hab Hn Ht Hd HM.
  destruct (length vs) as [|n] eqn:L; [lia|].
  rewrite <- L in Hl, Hn.
  apply (lebesgue_lemma vs f a (fun m => Derive_n f m a / INR (fact m)) n t); try assumption; try lia.
  - intros j Hj. apply (taylor_remainder f n a b M); try assumption. apply Hn. exact Hj.
  - apply (taylor_remainder f n a b M); assumption.
Qed.

(* non-vacuity: three nodes, f = exp on [0, 1] (all derivatives are exp, bounded by 3) *)
Example interp_error_exp t : 0 <= t <= 1 ->
  Rabs (interp [0; 1 / 2; 1] exp t - exp t) <= (1 + lebesgue [0; 1 / 2; 1] t) * (3 * (1 - 0) ^ 3 / INR (fact 3)).
Proof.
  intros Ht.
  assert (Dn : forall k u, ex_derive_n exp k u /\ Derive_n exp k u = exp u).
  { induction k as [|k IH]; intros u; [split; [exact I | reflexivity]|].
    assert (E : forall v, Derive_n exp k v = exp v) by (intros v; apply IH).
    split.
    - cbn [ex_derive_n]. apply (ex_derive_ext exp); [intros v; symmetry; apply E|]. exists (exp u). apply is_derive_Reals, derivable_pt_lim_exp.
    - cbn [Derive_n]. rewrite (Derive_ext _ exp) by exact E. apply is_derive_unique, is_derive_Reals, derivable_pt_lim_exp. }
  apply (interp_error_smooth [0; 1 / 2; 1] exp 0 1 3 t); cbn [length]; try lia; try lra; try assumption.
  - cbn [alldiff]. repeat split; try (repeat constructor); cbn [fsub f0 RFld]; lra.
  - intros j Hj. destruct j as [|[|[|j]]]; cbn [nth]; try lia; lra.
  - intros u _ k _. apply Dn.
  - intros u Hu. rewrite (proj2 (Dn 3%nat u)). rewrite Rabs_right by (left; apply exp_pos).
    apply Rle_trans with (exp 1); [left; apply exp_increasing; lra|]. pose proof exp_le_3. lra.
Qed.

(* ---------------- the same for the basis of the grid: what a prediction uses at a point of area i is the sum over ALL basis
   functions p_j of f(x_j) * (polynomial of p_j on that area); only the d+1 functions of the block contribute and the sum
   is the Lagrange interpolant on the block nodes *)
Definition grid_interp (ns : list R) (d i : nat) (f : R -> R) (t : R) : R :=
  rsum (fun j => f (nth j ns 0) * @area_poly RFld ns d i j t) (seq 0 (length ns)).

Lemma rsum_app a l1 l2 : rsum a (l1 ++ l2) = rsum a l1 + rsum a l2.
Proof. induction l1 as [|j l IH]; cbn [app]; rewrite ?rsum_nil, ?rsum_cons; [lra | rewrite IH; lra]. Qed.
Lemma rsum_zero a l : (forall j, In j l -> a j = 0) -> rsum a l = 0.
Proof. intros H. induction l as [|j l IH]; rewrite ?rsum_nil, ?rsum_cons; [reflexivity|]. rewrite H by (left; reflexivity). rewrite IH; [lra|]. intros i Hi. apply H. right. exact Hi. Qed.
Lemma rsum_seq_shift a s len : rsum a (seq s len) = rsum (fun jj => a (s + jj)%nat) (seq 0 len).
Proof.
  revert a s. induction len as [|len IH]; intros a s; cbn [seq]; rewrite ?rsum_nil, ?rsum_cons; [reflexivity|].
  rewrite Nat.add_0_r. f_equal. rewrite (IH a (S s)), (IH (fun jj => a (s + jj)%nat) 1%nat). apply rsum_ext. intros j _. f_equal. lia.
Qed.

Theorem grid_interp_is_block_interp ns d i f t : (1 <= d)%nat -> (d < length ns)%nat -> (i + 1 < length ns)%nat ->
  grid_interp ns d i f t = interp (@block_nodes RFld ns d i) f t.
Proof.
  intros Hd Hn Hi. pose proof (block_contains_area (length ns) d i Hd Hn Hi) as B.
  unfold grid_interp, interp. rewrite (@block_nodes_length RFld) by assumption.
  destruct (block (length ns) d i) as [a b] eqn:Eb. destruct B as (B1 & B2 & B3 & B4).
  replace (length ns) with (a + (S d + (length ns - a - S d)))%nat at 1 by lia.
  rewrite !seq_app, !rsum_app.
  rewrite (rsum_zero _ (seq 0 a)), (rsum_zero _ (seq (0 + a + S d) (length ns - a - S d))).
  - rewrite rsum_seq_shift. cbn [Nat.add]. ring_simplify. apply rsum_ext. intros jj Hjj. apply in_seq in Hjj.
    unfold area_poly, in_block. change (@F RFld) with R. rewrite Eb. cbn [fst].
    replace (andb (a <=? a + jj)%nat (a + jj <=? b)%nat) with true by (symmetry; apply andb_true_iff; rewrite !Nat.leb_le; lia).
    replace (a + jj - a)%nat with jj by lia.
    pose proof (@block_nodes_nth RFld ns d i (a + jj) Hd Hn Hi) as N. change (@F RFld) with R in N. rewrite Eb in N. cbn [fst snd] in N.
    replace (a + jj - a)%nat with jj in N by lia. change (@f0 RFld) with 0 in N. rewrite <- N by lia.
    unfold lag. change (@f0 RFld) with 0. lra.
  - intros j Hj. apply in_seq in Hj. unfold area_poly, in_block. change (@F RFld) with R. rewrite Eb.
    replace (andb (a <=? j)%nat (j <=? b)%nat) with false by (symmetry; apply andb_false_iff; right; apply Nat.leb_gt; lia).
    change (@f0 RFld) with 0. lra.
  - intros j Hj. apply in_seq in Hj. unfold area_poly, in_block. change (@F RFld) with R. rewrite Eb.
    replace (andb (a <=? j)%nat (j <=? b)%nat) with false by (symmetry; apply andb_false_iff; left; apply Nat.leb_gt; lia).
    change (@f0 RFld) with 0. lra.
Qed.

(* the error of the grid's interpolant on one area, for a smooth function *)
Theorem grid_interp_error ns d i f A B M t : @alldiff RFld ns -> (1 <= d <= 4)%nat -> (d < length ns)%nat -> (i + 1 < length ns)%nat -> A < B ->
  (forall j, (j <= d)%nat -> A <= nth j (@block_nodes RFld ns d i) 0 <= B) -> A <= t <= B ->
  (forall u, A <= u <= B -> forall k, (k <= S d)%nat -> ex_derive_n f k u) ->
  (forall u, A < u < B -> Rabs (Derive_n f (S d) u) <= M) ->
  Rabs (grid_interp ns d i f t - f t) <= (1 + lebesgue (@block_nodes RFld ns d i) t) * (M * (B - A) ^ S d / INR (fact (S d))).
Proof.
  intros H Hd Hn Hi HAB Hnodes Ht Hder HM.
  rewrite grid_interp_is_block_interp by (try assumption; lia).
  pose proof (@block_nodes_length RFld ns d i ltac:(lia) Hn Hi) as L.
  pose proof (interp_error_smooth (@block_nodes RFld ns d i) f A B M t) as T. rewrite L in T. apply T; try assumption.
  - apply (@block_nodes_alldiff RFld), H.
  - lia.
  - intros j Hj. apply Hnodes. lia.
Qed.

(* convergence under refinement: with the (d+1)-th derivative bounded by M on [lo, hi] and the Lebesgue function of the blocks
   bounded by Lam (it depends on the RELATIVE spacing of the nodes only), the interpolation error on any block of any grid
   inside [lo, hi] is below eps as soon as the block is narrower than delta *)
Theorem refinement_converges f lo hi d M Lam : (1 <= d <= 4)%nat -> lo < hi ->
  (forall u, lo <= u <= hi -> forall k, (k <= S d)%nat -> ex_derive_n f k u) ->
  (forall u, lo < u < hi -> Rabs (Derive_n f (S d) u) <= M) ->
  forall eps, 0 < eps -> exists delta, 0 < delta /\
    forall ns i A B t, @alldiff RFld ns -> (d < length ns)%nat -> (i + 1 < length ns)%nat -> lo <= A -> A < B -> B <= hi ->
      (forall j, (j <= d)%nat -> A <= nth j (@block_nodes RFld ns d i) 0 <= B) -> A <= t <= B ->
      lebesgue (@block_nodes RFld ns d i) t <= Lam -> B - A < delta ->
      Rabs (grid_interp ns d i f t - f t) < eps.
Proof.
  intros Hd Hlh Hder HM eps He.
  assert (M0 : 0 <= M). { eapply Rle_trans; [apply Rabs_pos | apply (HM ((lo + hi) / 2)); lra]. }
  assert (Hf : 0 < INR (fact (S d))) by (apply lt_0_INR, lt_O_fact).
  set (K := (1 + Rabs Lam) * (M / INR (fact (S d)))).
  assert (K0 : 0 <= K). { unfold K. apply Rmult_le_pos; [pose proof (Rabs_pos Lam); lra|]. apply Rmult_le_pos; [exact M0 | left; apply Rinv_0_lt_compat, Hf]. }
  exists (Rmin 1 (eps / (K + 1))). split.
  { apply Rmin_glb_lt; [lra|]. apply Rdiv_lt_0_compat; lra. }
  intros ns i A B t H Hn Hi HloA HAB HBhi Hnodes Ht HL Hdel.
  eapply Rle_lt_trans.
  - apply (grid_interp_error ns d i f A B M t); try assumption.
    + intros u Hu k Hk. apply Hder; [lra | exact Hk].
    + intros u Hu. apply HM. lra.
  - assert (Hd1 : B - A < 1) by (eapply Rlt_le_trans; [exact Hdel | apply Rmin_l]).
    assert (Hd2 : B - A < eps / (K + 1)) by (eapply Rlt_le_trans; [exact Hdel | apply Rmin_r]).
    assert (Hp : (B - A) ^ S d <= B - A).
    { assert (Hle1 : (B - A) ^ d <= 1).
      { clear -HAB Hd1. induction d as [|d IH]; cbn [pow]; [lra|].
        assert (0 <= (B - A) ^ d) by (apply pow_le; lra). nra. }
      cbn [pow]. assert (0 <= (B - A) ^ d) by (apply pow_le; lra). nra. }
    assert (HLam : 0 <= 1 + lebesgue (@block_nodes RFld ns d i) t <= 1 + Rabs Lam).
    { split.
      - assert (0 <= lebesgue (@block_nodes RFld ns d i) t); [|lra]. unfold lebesgue.
        apply Rle_trans with (rsum (fun _ => 0) (seq 0 (length (@block_nodes RFld ns d i)))); [rewrite rsum_zero by reflexivity; lra|].
        apply rsum_le. intros j _. apply Rabs_pos.
      - pose proof (Rle_abs Lam). lra. }
    assert (Hq : 0 <= (B - A) ^ S d) by (apply pow_le; lra).
    apply Rle_lt_trans with (K * (B - A)).
    + unfold K. 
      replace (M * (B - A) ^ S d / INR (fact (S d))) with ((M / INR (fact (S d))) * (B - A) ^ S d) by (unfold Rdiv; ring).
      assert (Hm : 0 <= M / INR (fact (S d))) by (apply Rmult_le_pos; [exact M0 | left; apply Rinv_0_lt_compat, Hf]).
      rewrite Rmult_assoc. apply Rmult_le_compat; try lra.
      * apply Rmult_le_pos; assumption.
      * apply Rmult_le_compat_l; assumption.
    + apply Rle_lt_trans with (K * (eps / (K + 1))); [apply Rmult_le_compat_l; lra|].
      unfold Rdiv. rewrite <- Rmult_assoc. rewrite (Rmult_comm K eps), Rmult_assoc.
      rewrite <- (Rmult_1_r eps) at 2. apply Rmult_lt_compat_l; [exact He|].
      apply (Rmult_lt_reg_r (K + 1)); [lra|]. rewrite Rmult_assoc, Rinv_l by lra. lra.
Qed.
