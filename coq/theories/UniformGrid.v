(* UniformGrid.v — the Lebesgue bound discharged for quadratic interpolation on an equally spaced block (the situation of a logarithmic grid, whose
   nodes are equally spaced in the interpolation variable ln x): sum_j |l_j| <= 5/4 on the whole block, any origin a and any spacing s > 0. *)
From Coq Require Import Reals List Lra Lia Arith Bool Psatz.
From Coquelicot Require Import Coquelicot.
From Yad Require Import Base Interp InterpTheorems InterpReal InterpDeriv.
Import ListNotations.
Open Scope R_scope.
Lemma three_node_lag a s tau : 0 < s ->
  lag [a; a + s; a + 2 * s] 0 (a + s * tau) = (tau - 1) * (tau - 2) / 2 /\
  lag [a; a + s; a + 2 * s] 1 (a + s * tau) = tau * (2 - tau) /\
  lag [a; a + s; a + 2 * s] 2 (a + s * tau) = tau * (tau - 1) / 2.
Proof. intros Hs. unfold lag. cbn [lagv nth Nat.eqb]. cbn [fmul fdiv fsub f1 RFld]. repeat split; field; lra. Qed.
Theorem uniform_quadratic_lebesgue a s tau : 0 < s -> 0 <= tau <= 2 -> lebesgue [a; a + s; a + 2 * s] (a + s * tau) <= 5 / 4.
Proof.
  intros Hs Ht. unfold lebesgue. cbn [length seq]. rewrite !rsum_cons, rsum_nil.
  destruct (three_node_lag a s tau Hs) as (E0 & E1 & E2). rewrite E0, E1, E2.
  assert (P1 : 0 <= tau * (2 - tau)) by (apply Rmult_le_pos; lra).
  rewrite (Rabs_pos_eq _ P1).
  destruct (Rle_dec tau 1) as [L|L].
  - assert (P0 : 0 <= (tau - 1) * (tau - 2) / 2) by nra.
    assert (P2 : tau * (tau - 1) / 2 <= 0) by nra.
    rewrite (Rabs_pos_eq _ P0). rewrite (Rabs_left1 _ P2). pose proof (pow2_ge_0 (tau - 1 / 2)) as Q. lra.
  - assert (P0 : (tau - 1) * (tau - 2) / 2 <= 0) by nra.
    assert (P2 : 0 <= tau * (tau - 1) / 2) by nra.
    rewrite (Rabs_left1 _ P0). rewrite (Rabs_pos_eq _ P2). pose proof (pow2_ge_0 (tau - 3 / 2)) as Q. lra.
Qed.
(* the derivative version: sum_j |l_j'| <= 5 / s on the block (not tight: the maximum is 4 / s, at the end nodes) *)
Lemma three_node_lag_u a s u : 0 < s ->
  lag [a; a + s; a + 2 * s] 0 u = (u - (a + s)) * (u - (a + 2 * s)) / (2 * s * s) /\
  lag [a; a + s; a + 2 * s] 1 u = (u - a) * ((a + 2 * s) - u) / (s * s) /\
  lag [a; a + s; a + 2 * s] 2 u = (u - a) * (u - (a + s)) / (2 * s * s).
Proof. intros Hs. unfold lag. cbn [lagv nth Nat.eqb]. cbn [fmul fdiv fsub f1 RFld]. repeat split; field; lra. Qed.
Theorem uniform_quadratic_lebesgue1 a s tau : 0 < s -> 0 <= tau <= 2 -> lebesgue1 [a; a + s; a + 2 * s] (a + s * tau) <= 5 / s.
Proof.
  intros Hs Ht. unfold lebesgue1, dlag. cbn [length seq]. rewrite !rsum_cons, rsum_nil.
  set (w := a + s * tau).
  assert (D0 : Derive (lag [a; a + s; a + 2 * s] 0) w = (2 * tau - 3) / 2 * / s).
  { apply is_derive_unique. apply (is_derive_ext (fun u => (u - (a + s)) * (u - (a + 2 * s)) / (2 * s * s))); [intros u; symmetry; apply (three_node_lag_u a s u Hs)|]. auto_derive; [exact I | unfold w; field; lra]. }
  assert (D1 : Derive (lag [a; a + s; a + 2 * s] 1) w = (2 - 2 * tau) * / s).
  { apply is_derive_unique. apply (is_derive_ext (fun u => (u - a) * ((a + 2 * s) - u) / (s * s))); [intros u; symmetry; apply (three_node_lag_u a s u Hs)|]. auto_derive; [exact I | unfold w; field; lra]. }
  assert (D2 : Derive (lag [a; a + s; a + 2 * s] 2) w = (2 * tau - 1) / 2 * / s).
  { apply is_derive_unique. apply (is_derive_ext (fun u => (u - a) * (u - (a + s)) / (2 * s * s))); [intros u; symmetry; apply (three_node_lag_u a s u Hs)|]. auto_derive; [exact I | unfold w; field; lra]. }
  rewrite D0, D1, D2. pose proof (Rinv_0_lt_compat s Hs) as Hr. change (5 / s) with (5 * / s). set (r := / s) in *.
  rewrite !Rabs_mult, (Rabs_pos_eq r) by lra.
  assert (B0 : Rabs ((2 * tau - 3) / 2) <= 3 / 2) by (apply Rabs_le; lra).
  assert (B1 : Rabs (2 - 2 * tau) <= 2) by (apply Rabs_le; lra).
  assert (B2 : Rabs ((2 * tau - 1) / 2) <= 3 / 2) by (apply Rabs_le; lra).
  pose proof (Rmult_le_compat_r r _ _ (Rlt_le _ _ Hr) B0). pose proof (Rmult_le_compat_r r _ _ (Rlt_le _ _ Hr) B1). pose proof (Rmult_le_compat_r r _ _ (Rlt_le _ _ Hr) B2). lra.
Qed.
(* hence the interpolation error on such a block from the smoothness of f alone *)
Lemma uniform3_alldiff a s : 0 < s -> @alldiff RFld [a; a + s; a + 2 * s].
Proof.
  intros Hs. cbn [alldiff]. cbn [fsub f0 RFld].
  repeat split; repeat constructor; try lra.
Qed.
Theorem uniform_quadratic_error a s f M tau : 0 < s -> 0 <= tau <= 2 ->
  (forall u, a <= u <= a + 2 * s -> forall k, (k <= 3)%nat -> ex_derive_n f k u) ->
  (forall u, a < u < a + 2 * s -> Rabs (Derive_n f 3 u) <= M) ->
  Rabs (interp [a; a + s; a + 2 * s] f (a + s * tau) - f (a + s * tau)) <= (1 + 5 / 4) * (M * (a + 2 * s - a) ^ 3 / INR (fact 3)).
Proof.
  intros Hs Ht Hd HM.
  assert (Hw : a <= a + s * tau <= a + 2 * s) by nra.
  pose proof (interp_error_smooth [a; a + s; a + 2 * s] f a (a + 2 * s) M (a + s * tau) (uniform3_alldiff a s Hs)) as G.
  cbn [length] in G. specialize (G ltac:(lia) ltac:(lra)).
  assert (Hn : forall j, (j < 3)%nat -> a <= nth j [a; a + s; a + 2 * s] 0 <= a + 2 * s).
  { intros j Hj. destruct j as [|[|[|j]]]; try lia; cbn [nth]; lra. }
  specialize (G Hn Hw Hd HM).
  pose proof (uniform_quadratic_lebesgue a s tau Hs Ht) as L.
  eapply Rle_trans; [exact G|]. apply Rmult_le_compat_r; [|lra].
  assert (M0 : 0 <= M). { eapply Rle_trans; [apply Rabs_pos | apply (HM (a + s)); lra]. }
  apply Rmult_le_pos; [apply Rmult_le_pos; [exact M0 | apply pow_le; lra] | left; apply Rinv_0_lt_compat, lt_0_INR, lt_O_fact].
Qed.
