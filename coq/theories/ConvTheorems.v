(* ConvTheorems.v — C01: what the code integrates is the convolution of the distribution with the basis function;
   linearity gives the contraction with any PDF in the span of the basis. *)
From Coq Require Import Reals List Lra.
From Coquelicot Require Import Coquelicot.
From Yad Require Import Conv.
Import ListNotations.
Open Scope R_scope.

Ltac rring := match goal with |- ?a = ?b => change (@eq R a b) end; ring.

Lemma is_RInt_zero a b : is_RInt (fun _ : R => 0) a b 0.
Proof.
  evar_last. apply (is_RInt_const (V := R_NormedModule)). unfold scal; cbn; unfold mult; cbn; ring.
Qed.

Section C.
  Variable k : rsl.

  (* restricting the integration to z <= x/a loses nothing: beyond, p(x/z) = 0 and p(x) = 0 *)
  Theorem truncation_exact p a b x : 0 < x -> x < b -> 0 < a <= 1 ->
    (forall u, u < a -> p u = 0) ->
    ex_RInt (integrand k p x) x (Rmin (x / a) 1) ->
    conv_code k p a b x = conv_spec k p x.
  Proof.
    intros Hx Hb Ha Hp Hex. unfold conv_code, conv_spec.
    destruct (Rle_dec b x) as [Hle|_]; [lra|]. f_equal.
    destruct (Rle_dec a x) as [Hax|Hax].
    - (* x/a >= 1: nothing is cut *)
      rewrite Rmin_right; [reflexivity|].
      apply Rmult_le_reg_r with a; [lra|]. unfold Rdiv. rewrite Rmult_assoc, Rinv_l by lra. lra.
    - assert (Hlt : x / a < 1).
      { apply Rmult_lt_reg_r with a; [lra|]. unfold Rdiv. rewrite Rmult_assoc, Rinv_l by lra. lra. }
      rewrite Rmin_left in * by lra.
      assert (Hpos : 0 < x / a) by (apply Rdiv_lt_0_compat; lra).
      assert (Hz : forall z, x / a < z < 1 -> integrand k p x z = 0).
      { intros z Hz. unfold integrand.
        assert (Hu : x / z < a).
        { apply Rlt_div_l; [lra|]. destruct Hz as [Hz1 _]. apply Rlt_div_l in Hz1; [|lra]. lra. }
        rewrite (Hp _ Hu), (Hp x) by lra. unfold Rdiv. rring. }
      assert (Hex2 : is_RInt (integrand k p x) (x / a) 1 0).
      { apply (is_RInt_ext (fun _ => 0)).
        - intros z Hzz. rewrite Rmin_left, Rmax_right in Hzz by lra. symmetry. apply Hz. exact Hzz.
        - apply is_RInt_zero. }
      rewrite <- (RInt_Chasles (integrand k p x) x (x / a) 1 Hex (ex_intro _ 0 Hex2)).
      rewrite (is_RInt_unique _ _ _ _ Hex2). unfold plus; cbn. rring.
  Qed.

  (* a basis function whose support ends at or below x contributes nothing (the code's early return), provided p
     vanishes at x as well (true for every Lagrange basis function except at the last node of a grid that does not
     reach 1, a point no convolution is asked at: x >= 1 - eps returns earlier) *)
  Theorem below_support_is_zero p a b x : 0 < x < 1 -> b <= x -> (forall u, b < u -> p u = 0) -> p x = 0 ->
    conv_code k p a b x = 0 /\ conv_spec k p x = 0.
  Proof.
    intros Hx Hb Hp Hpx. unfold conv_code, conv_spec. destruct (Rle_dec b x) as [_|Hn]; [|lra]. split; [reflexivity|].
    rewrite Hpx.
    assert (His : is_RInt (integrand k p x) x 1 0).
    { apply (is_RInt_ext (fun _ => 0)).
      - intros z Hz. rewrite Rmin_left, Rmax_right in Hz by lra. unfold integrand.
        assert (Hu : b < x / z).
        { apply Rle_lt_trans with x; [exact Hb|]. apply Rmult_lt_reg_r with z; [lra|]. unfold Rdiv.
          rewrite Rmult_assoc, Rinv_l by lra. assert (x * z < x * 1) by (apply Rmult_lt_compat_l; lra). lra. }
        rewrite (Hp _ Hu), Hpx. unfold Rdiv. rring.
      - apply is_RInt_zero. }
    rewrite (is_RInt_unique _ _ _ _ His). rring.
  Qed.

  (* linearity in the function convolved with *)
  Theorem conv_linear p q c e x : ex_RInt (integrand k p x) x 1 -> ex_RInt (integrand k q x) x 1 ->
    conv_spec k (fun u => c * p u + e * q u) x = c * conv_spec k p x + e * conv_spec k q x.
  Proof.
    intros Hp Hq. unfold conv_spec.
    rewrite (RInt_ext _ (fun z => plus (scal c (integrand k p x z)) (scal e (integrand k q x z)))).
    - rewrite (RInt_plus (V := R_CompleteNormedModule)).
      + rewrite !(RInt_scal (V := R_CompleteNormedModule)) by assumption. unfold plus, scal; cbn. unfold mult; cbn. rring.
      + apply (ex_RInt_scal (V := R_NormedModule)). exact Hp.
      + apply (ex_RInt_scal (V := R_NormedModule)). exact Hq.
    - intros z _. unfold integrand, plus, scal; cbn. unfold mult; cbn. unfold Rdiv. rring.
  Qed.

  (* hence: the operator contracted with the node values of f is the convolution with the interpolated f,
     f = sum_j f_j p_j (any number of basis functions) *)
  Fixpoint span (fs : list (R * (R -> R))) (u : R) : R :=
    match fs with [] => 0 | (c, p) :: r => c * p u + 1 * span r u end.
  Lemma integrand_zero x : is_RInt (integrand k (fun _ => 0) x) x 1 0.
  Proof.
    apply (is_RInt_ext (fun _ => 0)).
    - intros z _. unfold integrand, Rdiv. rring.
    - apply is_RInt_zero.
  Qed.
  Lemma span_integrable fs x : List.Forall (fun cp => ex_RInt (integrand k (snd cp) x) x 1) fs -> ex_RInt (integrand k (span fs) x) x 1.
  Proof.
    induction 1 as [|[c p] r Hp Hr IH]; cbn [span].
    - exists 0. apply integrand_zero.
    - cbn [snd] in Hp. destruct Hp as [ip Hp], IH as [ir IH]. exists (plus (scal c ip) (scal 1 ir)).
      apply (is_RInt_ext (fun z => plus (scal c (integrand k p x z)) (scal 1 (integrand k (span r) x z)))).
      + intros z _. unfold integrand, plus, scal; cbn. unfold mult; cbn. unfold Rdiv. rring.
      + apply (is_RInt_plus (V := R_NormedModule)); apply (is_RInt_scal (V := R_NormedModule)); assumption.
  Qed.
  Theorem contraction_with_pdf fs x : List.Forall (fun cp => ex_RInt (integrand k (snd cp) x) x 1) fs ->
    fold_right (fun cp acc => fst cp * conv_spec k (snd cp) x + acc) 0 fs = conv_spec k (span fs) x.
  Proof.
    induction 1 as [|[c p] r Hp Hr IH]; cbn [fold_right span fst snd].
    - unfold conv_spec. rewrite (is_RInt_unique _ _ _ _ (integrand_zero x)). rring.
    - rewrite conv_linear; [|exact Hp|apply span_integrable; exact Hr]. rewrite IH. rring.
  Qed.

  (* a pure delta distribution (LO): the entry is loc * p(x) *)
  Theorem delta_only p x : (forall z, r_reg k z = 0) -> (forall z, r_sing k z = 0) -> conv_spec k p x = p x * r_loc k x.
  Proof.
    intros Hr Hs. unfold conv_spec.
    assert (His : is_RInt (integrand k p x) x 1 0).
    { apply (is_RInt_ext (fun _ => 0)).
      - intros z _. unfold integrand. rewrite Hr, Hs. rring.
      - apply is_RInt_zero. }
    rewrite (is_RInt_unique _ _ _ _ His). rring.
  Qed.

  (* with the relation C03 proves for every kernel triple (loc' = -sing), the local term is the delta coefficient
     loc(0) minus the integral of the singular part over [0,x]: the three-part sum IS the plus distribution
     reg + [sing]_+ + loc(0) delta(1-z) convolved with p *)
  Theorem conv_is_plus_distribution p x : 0 < x ->
    (forall t, 0 <= t <= x -> is_derive (r_loc k) t (- r_sing k t)) ->
    (forall t, 0 <= t <= x -> continuous (r_sing k) t) ->
    conv_spec k p x = RInt (integrand k p x) x 1 - p x * RInt (r_sing k) 0 x + r_loc k 0 * p x.
  Proof.
    intros Hx Hd Hc. unfold conv_spec.
    assert (His : is_RInt (fun t => - r_sing k t) 0 x (r_loc k x - r_loc k 0)).
    { apply (is_RInt_derive (r_loc k) (fun t => - r_sing k t)).
      - intros t Ht. rewrite Rmin_left, Rmax_right in Ht by lra. apply Hd. exact Ht.
      - intros t Ht. rewrite Rmin_left, Rmax_right in Ht by lra.
        apply (continuous_opp (r_sing k)). apply Hc. exact Ht. }
    assert (Hs : ex_RInt (r_sing k) 0 x).
    { apply (ex_RInt_continuous (V := R_CompleteNormedModule)). intros t Ht. rewrite Rmin_left, Rmax_right in Ht by lra. apply Hc. exact Ht. }
    pose proof (is_RInt_unique _ _ _ _ His) as E.
    rewrite (RInt_ext _ (fun t => opp (r_sing k t))) in E by (intros; reflexivity).
    rewrite (RInt_opp (V := R_CompleteNormedModule)) in E by exact Hs.
    remember (RInt (r_sing k) 0 x) as I0 eqn:EI. unfold opp in E; cbn in E. assert (E2 : I0 = r_loc k 0 - r_loc k x) by lra. rewrite E2. rring.
  Qed.
End C.
